"""Replay of known finding C19-pandas-missing-check-output-passes (exit 1 = reproduces).
A check whose output holds a MISSING entry (<NA> of the nullable boolean dtype: what `Int64 > 0` gives for a missing cell) passes: PandasCheckBackend.postprocess_field decides with `check_output.all()`, which skips missing entries.
So `ignore_na=False` ("null values are not ignored") still ignores the nulls of every extension-dtype column, while the same data as
float64 / NaN is rejected."""
import sys
import warnings

warnings.simplefilter("ignore")
import pandas as pd
import pandera as pa


def verdict(schema, df):
    try:
        schema.validate(df)
        return "accepts"
    except (pa.errors.SchemaError, pa.errors.SchemaErrors):
        return "rejects"


obs = {
    "Int64 [1, <NA>], gt(0, ignore_na=False)": verdict(pa.DataFrameSchema({"a": pa.Column("Int64", pa.Check.gt(0, ignore_na=False), nullable=True)}),
                                                       pd.DataFrame({"a": pd.array([1, None], dtype="Int64")})),
    "float64 [1.0, NaN], gt(0, ignore_na=False)": verdict(pa.DataFrameSchema({"a": pa.Column(float, pa.Check.gt(0, ignore_na=False), nullable=True)}),
                                                          pd.DataFrame({"a": [1.0, None]})),
    "user check returning [True, <NA>]": verdict(pa.DataFrameSchema({"a": pa.Column(int, pa.Check(lambda s: pd.array([True, None], dtype="boolean"), ignore_na=False))}),
                                                 pd.DataFrame({"a": [1, 2]})),
}
print(obs)
sys.exit(1 if obs["Int64 [1, <NA>], gt(0, ignore_na=False)"] != obs["float64 [1.0, NaN], gt(0, ignore_na=False)"] else 0)
