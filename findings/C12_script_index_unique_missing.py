"""Replay of known finding C12-script-index-unique-missing: exits 1 while the defect reproduces on the real code, 0 otherwise.

INDEX_TEMPLATE has no `unique` slot: Index(unique=True) comes back as unique=False from the script.
"""
import sys
import warnings

warnings.simplefilter("ignore")
import pandas as pd
import pandera as pa
from pandera import Check, Column, DataFrameSchema, Index, MultiIndex, io


def run_script(text):
    ns = {}
    exec(text, ns)
    return ns["schema"]


def leg(name, make):
    """-> (equal_to_original, error)"""
    try:
        s = make()
        if name == "yaml":
            back = io.from_yaml(io.to_yaml(s))
        elif name == "json":
            back = io.from_json(io.to_json(s))
        else:
            back = run_script(io.to_script(s))
        return back == make(), None
    except Exception as e:  # noqa
        return False, f"{type(e).__name__}: {str(e)[:120]}"


mk = lambda: DataFrameSchema({"a": Column(int)}, index=Index(int, unique=True, name="i"))
back = run_script(io.to_script(mk()))
print({"original index.unique": mk().index.unique, "script index.unique": back.index.unique, "yaml leg equal": leg("yaml", mk)[0]})
sys.exit(1 if back.index.unique is not True else 0)
