"""Replay of known finding C11-polars-drop-swallows-non-row-errors (exit 1 = reproduces).
pandera.polars DataFrameSchema(drop_invalid_rows=True).validate(lazy=True) hands every collected error to drop_invalid_rows, which
only looks at errors' check_output; an error that is not attributable to rows (wrong dtype, missing column) is silently dropped
from the report: the frame is returned although it violates the schema."""
import sys
import warnings

warnings.simplefilter("ignore")
import polars as pl
import pandera as pa
import pandera.polars as pp

obs = {}
for name, schema, df in (
    ("wrong dtype", pp.DataFrameSchema({"a": pp.Column(int)}, drop_invalid_rows=True), pl.DataFrame({"a": ["x", "y"]})),
    ("missing column", pp.DataFrameSchema({"a": pp.Column(str), "b": pp.Column(int)}, drop_invalid_rows=True), pl.DataFrame({"a": ["x"]})),
):
    try:
        out = schema.validate(df, lazy=True)
        obs[name] = f"returned a frame with schema {dict(out.schema)} and {out.height} rows"
    except (pa.errors.SchemaError, pa.errors.SchemaErrors) as e:
        obs[name] = "raised " + type(e).__name__
    except Exception as e:  # noqa: BLE001
        obs[name] = f"leaked {type(e).__name__}: {e}"
# the same root: a coercion that fails on SOME rows is collected at the parser stage, the frame stays un-coerced, drop_invalid_rows
# removes the rows - and the valid rows come back with the dtype they arrived in
co = pp.DataFrameSchema({"a": pp.Column(int, coerce=True)}, drop_invalid_rows=True).validate(pl.DataFrame({"a": ["1", "x", "3"]}), lazy=True)
obs["coerce=True with one uncoercible row"] = f"returned {co['a'].to_list()} of dtype {co['a'].dtype}"
print(obs)
sys.exit(1 if any(v.startswith("returned") or v.startswith("leaked") for v in obs.values()) else 0)
