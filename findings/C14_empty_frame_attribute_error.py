"""Replay of known finding C14-empty-frame: exits 1 while the defect reproduces on the real code.

infer_dataframe_statistics reports "columns": None for a frame without columns and infer_dataframe_schema calls
.items() on it: infer_schema(pd.DataFrame()) leaks AttributeError instead of returning a schema that accepts the frame.
"""
import sys
import pandas as pd
import pandera as pa

obs = {}
for label, df in {"DataFrame()": pd.DataFrame(), "DataFrame(index=[1,2])": pd.DataFrame(index=[1, 2])}.items():
    try:
        schema = pa.infer_schema(df)
        schema.validate(df)
        obs[label] = "accepted"
    except AttributeError as e:
        obs[label] = f"AttributeError: {e}"
print(obs)
sys.exit(1 if any(v.startswith("AttributeError") for v in obs.values()) else 0)
