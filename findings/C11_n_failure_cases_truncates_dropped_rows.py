"""Replay of known finding C11-n-failure-cases-truncates-dropped-rows (exit 1 = reproduces).
Check(..., n_failure_cases=k) shortens the failure cases of a failing check to k; drop_invalid_rows removes exactly the rows the
collected errors report: the failing rows beyond the first k survive."""
import sys
import warnings

warnings.simplefilter("ignore")
import pandas as pd
import pandera as pa

obs, bad = {}, False
for n in (None, 1):
    schema = pa.DataFrameSchema({"a": pa.Column(int, pa.Check.gt(0, n_failure_cases=n))}, drop_invalid_rows=True)
    out = schema.validate(pd.DataFrame({"a": [-1, -2, 3]}), lazy=True)["a"].tolist()
    obs[f"n_failure_cases={n}"] = out
    bad = bad or out != [3]
print(obs)
sys.exit(1 if bad else 0)
