"""Replay of known finding C06-polars-column-named-check-output (exit 1 = reproduces).
The polars back end keeps the row-wise outcome of a check in a column called `check_output` next to the data.  A frame that has a column of
that name collides with it: validate leaks polars' DuplicateError instead of validating the frame (C06)."""
import sys
import warnings

warnings.simplefilter("ignore")
import polars as pl
import pandera as pa
import pandera.polars as pp

schema = pp.DataFrameSchema({"a": pp.Column(pl.Int64, nullable=False), "check_output": pp.Column(pl.Int64)})
obs, bad = {}, False
for lazy in (False, True):
    try:
        schema.validate(pl.DataFrame({"a": [1, None], "check_output": [1, 2]}), lazy=lazy)
        got = "accepted"
    except (pa.errors.SchemaError, pa.errors.SchemaErrors) as e:
        got = type(e).__name__
    except Exception as e:  # noqa: BLE001
        got = f"leaked {type(e).__name__}"
    obs[f"lazy={lazy}"] = got
    bad = bad or got.startswith("leaked")
print(obs)
sys.exit(1 if bad else 0)
