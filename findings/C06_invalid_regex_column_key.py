"""Replay of known finding C06-invalid-regex-column-key (exit 1 = reproduces).
A regex column whose key is not a valid pattern: the schema is accepted at construction, validate leaks the regular-expression engine's own
error (re.error on pandas, polars' InvalidOperationError) instead of a documented usage error (C06)."""
import sys
import warnings

warnings.simplefilter("ignore")
import pandas as pd
import polars as pl
import pandera as pa
import pandera.polars as pp

obs, bad = {}, False
for lib, call in (("pandas", lambda: pa.DataFrameSchema({"^a(": pa.Column(int, regex=True)}).validate(pd.DataFrame({"a": [1]}))),
                  ("polars", lambda: pp.DataFrameSchema({"^a(": pp.Column(pl.Int64, regex=True)}).validate(pl.DataFrame({"a": [1]})))):
    try:
        call()
        got = "accepted"
    except (pa.errors.SchemaError, pa.errors.SchemaErrors, pa.errors.SchemaDefinitionError, pa.errors.SchemaInitError) as e:
        got = type(e).__name__
    except Exception as e:  # noqa: BLE001
        got = f"leaked {type(e).__name__}"
    obs[lib] = got
    bad = bad or got.startswith("leaked")
print(obs)
sys.exit(1 if bad else 0)
