"""Replay of known finding C11-column-level-drop-inside-dataframe-schema (exit 1 = reproduces).
A Column(drop_invalid_rows=True) inside a DataFrameSchema (pandas and polars): the container validates the component, the component
drops its invalid rows from ITS result and reports nothing, the container discards that result - validate(lazy=True) returns the
frame with the invalid rows still in it and raises nothing."""
import sys
import warnings

warnings.simplefilter("ignore")
import pandas as pd
import polars as pl
import pandera as pa
import pandera.polars as pp

obs, bad = {}, False
for name, schema, df, rows in (
    ("pandas", pa.DataFrameSchema({"a": pa.Column(int, pa.Check.gt(0), drop_invalid_rows=True)}), pd.DataFrame({"a": [1, -5, 3]}), lambda o: o["a"].tolist()),
    ("polars", pp.DataFrameSchema({"a": pp.Column(int, pa.Check.gt(0), drop_invalid_rows=True)}), pl.DataFrame({"a": [1, -5, 3]}), lambda o: o["a"].to_list()),
):
    try:
        out = rows(schema.validate(df, lazy=True))
        obs[name] = f"returned {out}"
        bad = bad or -5 in out
    except (pa.errors.SchemaError, pa.errors.SchemaErrors) as e:
        obs[name] = "raised " + type(e).__name__
    except Exception as e:  # noqa: BLE001
        obs[name] = f"leaked {type(e).__name__}: {e}"[:140]
        bad = True
print(obs)
sys.exit(1 if bad else 0)
