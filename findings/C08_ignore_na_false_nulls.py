"""Replay of known finding C08-ignore-na-false-nulls (exit 1 = reproduces).

With ignore_na=False a null element fails a comparison check on pandas (NaN > 0 is False) but passes on polars
(the check output is null and Expr.all() ignores nulls)."""
import sys
import warnings

warnings.simplefilter("ignore")
import pandas as pd
import polars as pl
import pandera as pa
import pandera.polars as pap


def verdict(f):
    try:
        f()
        return "accept"
    except (pa.errors.SchemaError, pa.errors.SchemaErrors):
        return "reject"


sp = pa.DataFrameSchema({"a": pa.Column(float, pa.Check.gt(0, ignore_na=False), nullable=True)})
sl = pap.DataFrameSchema({"a": pap.Column(float, pap.Check.gt(0, ignore_na=False), nullable=True)})
vp = verdict(lambda: sp.validate(pd.DataFrame({"a": [1.0, None]})))
vl = verdict(lambda: sl.validate(pl.DataFrame({"a": [1.0, None]})))
print({"pandas": vp, "polars": vl})
sys.exit(1 if vp != vl else 0)
