"""Replay of known finding C14-yaml-datetime-subsecond: exits 1 while the defect reproduces on the real code.

_serialize_check_stats writes datetime bounds with "%Y-%m-%d %H:%M:%S": the fractional second of the maximum is
dropped, so from_yaml(to_yaml(infer_schema(D))) rejects D although infer_schema(D) accepts it (column and index).
"""
import sys
import pandas as pd
import pandera as pa
from pandera.io import from_yaml, to_yaml

ts = pd.to_datetime(["2020-01-01 00:00:00.250", "2020-01-01 00:00:01.500"])
cases = {"column": pd.DataFrame({"t": ts}), "index": pd.DataFrame({"a": [1, 2]}, index=ts)}
obs = {}
for label, df in cases.items():
    schema = pa.infer_schema(df)
    schema.validate(df)  # the inferred schema itself accepts
    try:
        from_yaml(to_yaml(schema)).validate(df)
        obs[label] = "accepted after round trip"
    except pa.errors.SchemaError as e:
        obs[label] = "rejected after round trip: " + str(e).splitlines()[0][:140]
print(obs)
sys.exit(1 if any(v.startswith("rejected") for v in obs.values()) else 0)
