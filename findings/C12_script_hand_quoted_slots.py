"""Replay of known finding C12-script-hand-quoted-slots: exits 1 while the defect reproduces on the real code, 0 otherwise.

Column keys, index names, column/index titles and descriptions are put between quote characters by hand, without escaping:
a quote character (or backslash escape) in the text breaks or changes the program.
"""
import sys
import warnings

warnings.simplefilter("ignore")
import pandas as pd
import pandera as pa
from pandera import Check, Column, DataFrameSchema, Index, MultiIndex, io


def run_script(text):
    ns = {}
    exec(text, ns)
    return ns["schema"]


def leg(name, make):
    """-> (equal_to_original, error)"""
    try:
        s = make()
        if name == "yaml":
            back = io.from_yaml(io.to_yaml(s))
        elif name == "json":
            back = io.from_json(io.to_json(s))
        else:
            back = run_script(io.to_script(s))
        return back == make(), None
    except Exception as e:  # noqa
        return False, f"{type(e).__name__}: {str(e)[:120]}"


cases = {
    "column description with a double quote": lambda: DataFrameSchema({"a": Column(int, description='say "hi"')}),
    "column name with a single quote": lambda: DataFrameSchema({"it's": Column(int)}),
    "column name with a backslash escape": lambda: DataFrameSchema({"a\\b": Column(int)}),
    "index name with a double quote": lambda: DataFrameSchema({"a": Column(int)}, index=Index(int, name='i"x')),
}
obs = {k: leg("script", mk) for k, mk in cases.items()}
print(obs)
sys.exit(1 if any(not ok for ok, _ in obs.values()) else 0)
