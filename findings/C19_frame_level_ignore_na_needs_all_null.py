"""Replay of known finding C19-frame-level-ignore-na-needs-all-null (exit 1 = reproduces).
Check(ignore_na=True) on a DataFrame: the documentation says "For dataframes, ignores rows with any null value"; the pandas back end
pardons a failing row only if ALL its cells are null (postprocess_table_with_field_output: `check_obj.isna().all(axis="columns")`)."""
import sys
import warnings

warnings.simplefilter("ignore")
import numpy as np
import pandas as pd
import pandera as pa

df = pd.DataFrame({"a": [1.0, np.nan, np.nan], "b": [1.0, 5.0, np.nan]})
schema = pa.DataFrameSchema({"a": pa.Column(float, nullable=True), "b": pa.Column(float, nullable=True)},
                            checks=pa.Check(lambda d: d["a"] > 0))  # row-wise verdict; NaN > 0 is False
try:
    schema.validate(df, lazy=True)
    failing = []
except pa.errors.SchemaErrors as e:
    failing = sorted(set(e.failure_cases["index"].tolist()))
print({"rows with a null value": [1, 2], "rows reported as failing under ignore_na=True": failing})
sys.exit(1 if failing else 0)
