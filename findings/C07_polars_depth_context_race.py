"""Replay of known finding C07-polars-depth-context (exit 1 = reproduces).
pandera.polars validate() stores the per-call validation depth in the module-global context configuration.  While a
pl.DataFrame validation (full depth) is inside a user check, a concurrent pl.LazyFrame validation reads that depth and runs
data checks that its solo run (schema-only by default) does not run."""
import sys
import threading
import warnings

warnings.simplefilter("ignore")
import polars as pl
import pandera.polars as pa

in_check, release = threading.Event(), threading.Event()
gate = {"on": False}


def blocking(data):
    if gate["on"] and threading.current_thread().name == "A":
        in_check.set()
        release.wait(10)
    return data.lazyframe.select(pl.col(data.key).is_not_null())


schema_a = pa.DataFrameSchema({"a": pa.Column(int, pa.Check(blocking))})
schema_b = pa.DataFrameSchema({"a": pa.Column(int, pa.Check.gt(100))})
lazy_bad_values = pl.LazyFrame({"a": [1, 2]})  # right dtype, violates gt(100): accepted at schema-only depth


def outcome_b():
    try:
        schema_b.validate(lazy_bad_values)
        return "accepted"
    except Exception as e:  # noqa
        return "raised " + type(e).__name__


solo = outcome_b()
gate["on"] = True
res = {}
ta = threading.Thread(target=lambda: res.__setitem__("A", schema_a.validate(pl.DataFrame({"a": [1]})).shape), name="A")
ta.start()
in_check.wait(10)
tb = threading.Thread(target=lambda: res.__setitem__("B", outcome_b()), name="B")
tb.start()
tb.join(10)
release.set()
ta.join(10)
print({"solo": solo, "B_during_A": res.get("B")})
sys.exit(1 if res.get("B") != solo else 0)
