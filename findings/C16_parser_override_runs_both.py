"""Replay of known finding C16-parser-override-runs-both: exits 1 while the defect reproduces on the real code.

DataFrameModel._collect_parser_infos records the method names it has seen but - unlike _collect_check_infos - never
consults them, so a @parser (or @dataframe_parser) that a subclass overrides is collected TWICE: the child's definition
and the parent's.  The child model then parses with both functions, while the object-API schema the class describes
(one parser, the child's) parses once.  Pandas only (the polars back end does not run user parsers at all).
"""
import sys
import warnings

import pandas as pd

import pandera as pa

warnings.simplefilter("ignore")


class Parent(pa.DataFrameModel):
    a: int

    @pa.parser("a")
    def fix(cls, series):
        return series + 1


class Child(Parent):
    @pa.parser("a")
    def fix(cls, series):  # overrides Parent.fix
        return series + 100


class Frame(pa.DataFrameModel):
    a: int

    @pa.dataframe_parser
    def shift(cls, df):
        return df + 1


class FrameChild(Frame):
    @pa.dataframe_parser
    def shift(cls, df):
        return df + 100


equivalent = pa.DataFrameSchema({"a": pa.Column(int, parsers=pa.Parser(lambda s: s + 100))})
df = pd.DataFrame({"a": [1]})
got = Child.validate(df)["a"].tolist()
want = equivalent.validate(df)["a"].tolist()
got_df = FrameChild.validate(df)["a"].tolist()
n = len(Child.to_schema().columns["a"].parsers)
print({"Child.validate(a=[1])": got, "equivalent schema": want, "column parsers in Child.to_schema()": n,
       "FrameChild.validate(a=[1]) (dataframe_parser)": got_df, "Child.fix is": "the child's definition (python attribute lookup)"})
sys.exit(1 if (got != want or got_df != want or n != 1) else 0)
