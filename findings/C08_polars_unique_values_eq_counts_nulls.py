"""Replay of known finding C08-polars-unique-values-eq-counts-nulls (exit 1 = reproduces).
Check.unique_values_eq(values) under the default ignore_na=True on a nullable column with a missing cell: the pandas check back end
drops missing cells before the check sees the column, so the unique values are compared without them; the polars back end hands the
whole column over, `Series.unique()` lists the null (or the float NaN) as an element and the set never equals `values`."""
import sys
import warnings

warnings.simplefilter("ignore")
import pandas as pd
import polars as pl
import pandera as pa
import pandera.polars as pp

obs, bad = {}, False
for label, data in (("null", [1.0, None, 3.0]), ("NaN", [1.0, float("nan"), 3.0])):
    v = []
    for m, fr in ((pa, pd.DataFrame({"a": data})), (pp, pl.DataFrame({"a": data}))):
        try:
            m.DataFrameSchema({"a": m.Column(float, pa.Check.unique_values_eq([1.0, 3.0]), nullable=True)}).validate(fr, lazy=True)
            v.append("accepts")
        except pa.errors.SchemaErrors:
            v.append("rejects")
    obs[label] = {"pandas": v[0], "polars": v[1]}
    bad = bad or v[0] != v[1]
print(obs)
sys.exit(1 if bad else 0)
