"""Replay of known finding C14-empty-object-array: exits 1 while the defect reproduces on the real code.

_get_array_type asks pd.api.types.infer_dtype for every object array; for an array without elements the answer is
"empty", which pandas_engine.Engine.dtype does not understand: infer_schema raises TypeError for an empty object
column, an empty object Series and a frame with an empty object index (float/int/datetime empties are fine).
"""
import sys
import pandas as pd
import pandera as pa

cases = {
    "empty object column": pd.DataFrame({"a": pd.Series([], dtype=object)}),
    "empty object series": pd.Series([], dtype=object),
    "empty object index": pd.DataFrame({"a": pd.Series([], dtype=int)}, index=pd.Index([], dtype=object)),
}
obs = {}
for label, obj in cases.items():
    try:
        pa.infer_schema(obj).validate(obj)
        obs[label] = "accepted"
    except TypeError as e:
        obs[label] = f"TypeError: {e}"
print(obs)
sys.exit(1 if any(v.startswith("TypeError") for v in obs.values()) else 0)
