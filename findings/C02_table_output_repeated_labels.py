"""Replay of known finding C02-table-output-repeated-labels (exit 1 = reproduces).
A dataframe-wide check whose function returns a boolean TABLE (`Check(lambda df: df > 0)`): PandasCheckBackend.postprocess_table collects the
failing cells per column and merges them with groupby("index") into one {column: value} mapping per LABEL.  When two rows share a label their
failing cells are merged into one mapping - a cell of the earlier row that fails in the same column as a cell of the later row is overwritten:
the lazy report does not name every offending cell (C02)."""
import sys
import warnings

warnings.simplefilter("ignore")
import pandas as pd
import pandera as pa

schema = pa.DataFrameSchema({"a": pa.Column(float), "b": pa.Column(float)}, checks=pa.Check(lambda d: d > 0))
df = pd.DataFrame({"a": [1.0, -1.0, 2.0], "b": [-1.0, -2.0, 3.0]}, index=[0, 0, 1])
want = sorted([("b", 0, -1.0), ("a", 0, -1.0), ("b", 0, -2.0)])  # every cell that is not > 0: (column, row label, value)
try:
    schema.validate(df, lazy=True)
    got = "accepted"
except pa.errors.SchemaErrors as e:
    got = sorted((c, int(r["index"]), float(v)) for _, r in e.failure_cases.iterrows() for c, v in (r["failure_case"] or {}).items())
print({"failing cells reported": got, "expected": want})
sys.exit(1 if got != want else 0)
