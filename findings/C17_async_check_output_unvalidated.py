"""Replay of known finding C17-async-check-output-unvalidated: exits 1 while the defect reproduces on the real code.

check_output on a coroutine function validates the awaited result but returns the UNVALIDATED `res` (aio_wrapper discards the
return value of validate): the caller does not receive the parsed (coerced) object, and a tuple output is not re-assembled.
The synchronous wrapper returns the validated object.
"""
import asyncio
import sys

import pandas as pd

import pandera as pa
from pandera import check_output

schema = pa.SeriesSchema(int, coerce=True)


@check_output(schema)
def sync_fn():
    return pd.Series(["1", "2"])


@check_output(schema)
async def async_fn():
    return pd.Series(["1", "2"])


@check_output(schema, 1)
async def async_tuple():
    return "x", pd.Series(["1", "2"])


obs = {"sync": str(sync_fn().dtype), "async": str(asyncio.run(async_fn()).dtype), "async tuple[1]": str(asyncio.run(async_tuple())[1].dtype)}
for k, v in obs.items():
    print(f"{k}: dtype of the object the caller receives = {v}")
sys.exit(0 if obs["sync"] == obs["async"] == obs["async tuple[1]"] == "int64" else 1)
