"""Replay of known finding C12-frozenset-statistic: exits 1 while the defect reproduces on the real code, 0 otherwise.

Check.unique_values_eq stores its values as a frozenset in the statistics: not representable in YAML / JSON.
"""
import sys
import warnings

warnings.simplefilter("ignore")
import pandas as pd
import pandera as pa
from pandera import Check, Column, DataFrameSchema, Index, MultiIndex, io


def run_script(text):
    ns = {}
    exec(text, ns)
    return ns["schema"]


def leg(name, make):
    """-> (equal_to_original, error)"""
    try:
        s = make()
        if name == "yaml":
            back = io.from_yaml(io.to_yaml(s))
        elif name == "json":
            back = io.from_json(io.to_json(s))
        else:
            back = run_script(io.to_script(s))
        return back == make(), None
    except Exception as e:  # noqa
        return False, f"{type(e).__name__}: {str(e)[:120]}"


mk = lambda: DataFrameSchema({"a": Column(int, Check.unique_values_eq([1, 2]))})
obs = {l: leg(l, mk) for l in ("yaml", "json")}
print(obs, {"statistics": mk().columns["a"].checks[0].statistics})
sys.exit(1 if any(not ok for ok, _ in obs.values()) else 0)
