"""Replay of known finding C17-str-getter-flattens-varargs: exits 1 while the defect reproduces on the real code.

With a str obj_getter (and in check_io) and the designated argument passed positionally, the wrapper rebuilds the positional
arguments with `list(bind_partial(*args).arguments.values())`: the extra positional arguments of a `*args` function arrive
in the body as ONE tuple.  The None designation of the same parameter passes them through unchanged.
"""
import sys

import pandas as pd

import pandera as pa
from pandera import check_input, check_io

schema = pa.DataFrameSchema({"a": pa.Column(int)})
df = pd.DataFrame({"a": [1]})


@check_input(schema)
def by_default(df, *rest):
    return rest


@check_input(schema, "df")
def by_name(df, *rest):
    return rest


@check_io(df=schema)
def by_io(df, *rest):
    return rest


obs = {"undecorated": (1, 2), "obj_getter=None": by_default(df, 1, 2), "obj_getter='df'": by_name(df, 1, 2), "check_io(df=...)": by_io(df, 1, 2)}
for k, v in obs.items():
    print(f"{k}: body received *rest = {v!r}")
sys.exit(0 if all(v == (1, 2) for v in obs.values()) else 1)
