"""Replay of known finding C15-reset-after-set-loses-required (exit 1 = reproduces).
An Index has no `required` option: an OPTIONAL column that is moved into the index and back (reset_index(set_index(S, [k]), [k])) comes
back as a required column - the inverse law reset-after-set does not hold for it, and the round-tripped schema rejects frames
without the column that S accepts."""
import sys
import warnings

warnings.simplefilter("ignore")
import pandas as pd
import pandera as pa

S = pa.DataFrameSchema({"a": pa.Column(int, required=False), "b": pa.Column(int)})
R = S.set_index(["a"]).reset_index(["a"])
D = pd.DataFrame({"b": [1]})
S.validate(D)
try:
    R.validate(D)
    verdict = "accepts"
except (pa.errors.SchemaError, pa.errors.SchemaErrors) as e:
    verdict = "rejects: " + str(e).splitlines()[0][:80]
print({"reset(set(S)) == S": R == S, "required of 'a' before / after": [S.columns["a"].required, R.columns["a"].required], "round-tripped schema on a frame without 'a'": verdict})
sys.exit(1 if R != S else 0)
