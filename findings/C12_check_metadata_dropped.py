"""Replay of known finding C12-check-metadata-dropped: exits 1 while the defect reproduces on the real code, 0 otherwise.

parse_checks carries raise_warning / n_failure_cases / ignore_na only: a check's title, description, error message and
element_wise flag are lost on every leg (BaseCheck.__eq__ compares them).
"""
import sys
import warnings

warnings.simplefilter("ignore")
import pandas as pd
import pandera as pa
from pandera import Check, Column, DataFrameSchema, Index, MultiIndex, io


def run_script(text):
    ns = {}
    exec(text, ns)
    return ns["schema"]


def leg(name, make):
    """-> (equal_to_original, error)"""
    try:
        s = make()
        if name == "yaml":
            back = io.from_yaml(io.to_yaml(s))
        elif name == "json":
            back = io.from_json(io.to_json(s))
        else:
            back = run_script(io.to_script(s))
        return back == make(), None
    except Exception as e:  # noqa
        return False, f"{type(e).__name__}: {str(e)[:120]}"


cases = {
    "title": lambda: DataFrameSchema({"a": Column(int, Check.gt(0, title="t"))}),
    "description": lambda: DataFrameSchema({"a": Column(int, Check.gt(0, description="d"))}),
    "error": lambda: DataFrameSchema({"a": Column(int, Check.gt(0, error="boom"))}),
}
obs = {k: {l: leg(l, mk)[0] for l in ("yaml", "json", "script")} for k, mk in cases.items()}
print(obs)
sys.exit(1 if any(not v for o in obs.values() for v in o.values()) else 0)
