"""Replay of known finding C13-joint-unique-all-nullable (exit 1 = reproduces).
DataFrameSchema(unique=[a, b]) with BOTH listed columns nullable: every listed column is synthesised unique, then the null masks are
applied - two rows may become (NaN, NaN), which validation counts as duplicates.  (With one non-nullable listed column the rows stay
distinct: that column is unique and never nulled.)"""
import sys
import warnings

warnings.simplefilter("ignore")
import hypothesis
import pandera as pa

schema = pa.DataFrameSchema({"a": pa.Column(float, nullable=True), "b": pa.Column(float, nullable=True)}, unique=["a", "b"])
rejected = []


@hypothesis.settings(max_examples=200, derandomize=True, database=None, deadline=None, suppress_health_check=list(hypothesis.HealthCheck))
@hypothesis.given(schema.strategy(size=4))
def run(df):
    try:
        schema.validate(df)
    except (pa.errors.SchemaError, pa.errors.SchemaErrors):
        rejected.append(df.to_dict("list"))


run()
print({"drawn frames rejected by their own schema": len(rejected), "example": rejected[0] if rejected else None})
sys.exit(1 if rejected else 0)
