"""Replay of known finding C20-polars-sample-attributeerror (exit 1 = reproduces).
validate(sample=n) on the polars back end calls LazyFrame.sample, which does not exist: AttributeError leaks."""
import sys
import warnings

warnings.simplefilter("ignore")
import polars as pl
import pandera.polars as pa

try:
    pa.DataFrameSchema({"a": pa.Column(int)}).validate(pl.DataFrame({"a": [1, 2, 3]}), sample=1)
    res = "returned"
except Exception as e:  # noqa
    res = type(e).__name__
print({"validate(sample=1)": res})
sys.exit(1 if res == "AttributeError" else 0)
