"""Replay of known finding C13-startswith-endswith-regex: exits 1 while the defect reproduces on the real code.

str_startswith_strategy / str_endswith_strategy interpolate the literal `string` into a regular expression without re.escape,
while the checks compare literally (Series.str.startswith / endswith): a string with a metacharacter yields data the check rejects.
"""
import sys, warnings
warnings.simplefilter("ignore")
import hypothesis
import pandas as pd
import pandera as pa


def invalid_draw(schema, size=3):
    """a draw of schema.strategy(size) that schema.validate rejects (found by hypothesis.find), or None"""
    def bad(obj):
        try:
            schema.validate(obj)
            return False
        except (pa.errors.SchemaError, pa.errors.SchemaErrors):
            return True
    try:
        return hypothesis.find(schema.strategy(size=size), bad, settings=hypothesis.settings(max_examples=120, database=None, deadline=None))
    except (hypothesis.errors.NoSuchExample, hypothesis.errors.Unsatisfiable):
        return None


out = {}
for label, schema in {"str_startswith('a.b')": pa.SeriesSchema(str, pa.Check.str_startswith("a.b")),
                      "str_endswith('x|y')": pa.SeriesSchema(str, pa.Check.str_endswith("x|y")),
                      "[str_matches('a.b'), str_startswith('a.b')]": pa.SeriesSchema(str, [pa.Check.str_matches("a.b"), pa.Check.str_startswith("a.b")])}.items():
    bad = invalid_draw(schema)
    out[label] = None if bad is None else bad.tolist()
print({"draws rejected by their own schema": out})
sys.exit(1 if any(v is not None for v in out.values()) else 0)
