"""Replay of known finding C13-unique-nullable: exits 1 while the defect reproduces on the real code.

series_strategy / index_strategy / dataframe_strategy establish uniqueness in the hypothesis assembly call and apply the null mask
afterwards; the mask may null several rows, and validation counts repeated nulls as duplicates: unique=True + nullable=True schemas
emit data that their own validation rejects.
"""
import sys, warnings
warnings.simplefilter("ignore")
import hypothesis
import pandas as pd
import pandera as pa

out = {}
for label, schema in {"SeriesSchema(float, nullable=True, unique=True)": pa.SeriesSchema(float, nullable=True, unique=True),
                      "DataFrameSchema({'a': Column(float, nullable=True, unique=True)})": pa.DataFrameSchema({"a": pa.Column(float, nullable=True, unique=True)})}.items():
    def bad(obj, schema=schema):
        try:
            schema.validate(obj)
            return False
        except (pa.errors.SchemaError, pa.errors.SchemaErrors):
            return True
    try:
        ex = hypothesis.find(schema.strategy(size=4), bad, settings=hypothesis.settings(max_examples=200, database=None, deadline=None))
        out[label] = ex.to_dict() if hasattr(ex, "to_dict") else list(ex)
    except (hypothesis.errors.NoSuchExample, hypothesis.errors.Unsatisfiable):
        out[label] = None
print({"draws rejected by their own schema": out})
sys.exit(1 if any(v is not None for v in out.values()) else 0)
