"""Replay of known finding C13-index-strategy-unregistered: exits 1 while the defect reproduces on the real code.

STRATEGY_DISPATCHER is filled when pandera.backends.pandas.builtin_checks is imported, which happens lazily in
register_default_backends.  ArraySchema.strategy and DataFrameSchema.strategy call it; Index.strategy and MultiIndex.strategy do not:
in a fresh process every built-in check of an Index / MultiIndex schema is silently ignored by the strategy.
Each probe runs in a fresh interpreter (the registry is process-global state).
"""
import subprocess
import sys

PROBE = r'''
import warnings; warnings.simplefilter("ignore")
import sys, pandas as pd, pandera as pa, hypothesis
schema = %s
bad = None
def test(obj):
    global bad
    if bad is None and not all(v < 144 for v in (obj.get_level_values(0) if isinstance(obj, pd.MultiIndex) else obj)):
        bad = list(obj)
hypothesis.settings(max_examples=30, database=None, deadline=None, derandomize=True, phases=[hypothesis.Phase.generate],
                    suppress_health_check=list(hypothesis.HealthCheck))(hypothesis.given(schema.strategy(size=3))(test))()
print(bad)
sys.exit(1 if bad is not None else 0)
'''
out = {}
for label, expr in {"Index(int, Check.lt(144))": 'pa.Index(int, pa.Check.lt(144), name="i")',
                    "MultiIndex([Index(int, Check.lt(144))])": 'pa.MultiIndex([pa.Index(int, pa.Check.lt(144), name="l0")])'}.items():
    p = subprocess.run([sys.executable, "-c", PROBE % expr], capture_output=True, text=True)
    out[label] = {"draw violating lt(144)": p.stdout.strip()[-200:], "reproduced": p.returncode == 1}
print(out)
sys.exit(1 if any(v["reproduced"] for v in out.values()) else 0)
