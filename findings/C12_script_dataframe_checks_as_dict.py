"""Replay of known finding C12-script-dataframe-checks-as-dict: exits 1 while the defect reproduces on the real code, 0 otherwise.

to_script writes dataframe-level checks as the statistics dict instead of a list of Check calls (the executed script builds\na schema whose `checks` is not the original list), and leaves the `options` entry inside the original check's statistics.
"""
import sys
import warnings

warnings.simplefilter("ignore")
import pandas as pd
import pandera as pa
from pandera import Check, Column, DataFrameSchema, Index, MultiIndex, io


def run_script(text):
    ns = {}
    exec(text, ns)
    return ns["schema"]


def leg(name, make):
    """-> (equal_to_original, error)"""
    try:
        s = make()
        if name == "yaml":
            back = io.from_yaml(io.to_yaml(s))
        elif name == "json":
            back = io.from_json(io.to_json(s))
        else:
            back = run_script(io.to_script(s))
        return back == make(), None
    except Exception as e:  # noqa
        return False, f"{type(e).__name__}: {str(e)[:120]}"


mk = lambda: DataFrameSchema({"a": Column(int)}, checks=[Check.gt(0)])
s = mk()
before = dict(s.checks[0].statistics)
text = io.to_script(s)
after = dict(s.checks[0].statistics)
ok, err = leg("script", mk)
print({"script leg equal": ok, "error": err, "statistics before": before, "statistics after to_script": after})
sys.exit(1 if (not ok or before != after) else 0)
