"""Replay of known finding C16-parser-info-kwargs-name-popped (to_parser twin of C16-info-kwargs-name-popped)."""
import os
import subprocess
import sys

here = os.path.dirname(os.path.abspath(__file__))
sys.exit(subprocess.call([sys.executable, os.path.join(here, "C16_check_name_depends_on_compile_order.py"), "parser"]))
