"""Replay of known finding C13-eq-ignores-chain: exits 1 while the defect reproduces on the real code.

eq_strategy ignores the strategy it is chained onto (returns just(value)), so for checks=[gt(5), eq(3)] - an unsatisfiable
schema - the strategy emits 3 instead of reporting unsatisfiability (C13: synthesised data must pass the schema that made it).
"""
import sys, warnings
warnings.simplefilter("ignore")
import hypothesis
import pandas as pd
import pandera as pa


def invalid_draw(schema, size=3):
    """a draw of schema.strategy(size) that schema.validate rejects (found by hypothesis.find), or None"""
    def bad(obj):
        try:
            schema.validate(obj)
            return False
        except (pa.errors.SchemaError, pa.errors.SchemaErrors):
            return True
    try:
        return hypothesis.find(schema.strategy(size=size), bad, settings=hypothesis.settings(max_examples=120, database=None, deadline=None))
    except (hypothesis.errors.NoSuchExample, hypothesis.errors.Unsatisfiable):
        return None


schema = pa.SeriesSchema(int, [pa.Check.gt(5), pa.Check.eq(3)])
try:
    bad = invalid_draw(schema)
except Exception as e:  # Unsatisfiable etc.: the strategy reported the problem -> fine
    print({"strategy reported": f"{type(e).__name__}: {e}"[:200]})
    sys.exit(0)
print({"schema": "SeriesSchema(int, [Check.gt(5), Check.eq(3)])", "draw rejected by its own schema": None if bad is None else bad.tolist()})
sys.exit(1 if bad is not None else 0)
