"""numpy engine: the abstract instances pandera.dtypes.Int(), UInt(), Float(), Float64(), Complex(), Complex128() resolve to the SMALLEST registered width (int8, uint8, float16, complex64), while the classes Int / Float / Complex and the aliases resolve to 64 / 64 / 128 bits.

Stand-alone replay: exits 1 while the defect reproduces on the pandera tree under $PANDERA_REPO (default /repo), 0 otherwise.
"""
import os
import sys
import warnings

sys.path.insert(0, os.environ.get("PANDERA_REPO", "/repo"))
warnings.simplefilter("ignore")

from pandera import dtypes
from pandera.engines import numpy_engine

E = numpy_engine.Engine
bad = []
for inst, cls in [(dtypes.Int(), dtypes.Int), (dtypes.UInt(), dtypes.UInt), (dtypes.Float(), dtypes.Float), (dtypes.Float64(), dtypes.Float64),
                  (dtypes.Complex(), dtypes.Complex), (dtypes.Complex128(), dtypes.Complex128)]:
    a, b = E.dtype(inst), E.dtype(cls)
    print(f"numpy_engine.Engine.dtype({type(inst).__name__}()) = {a}   |   dtype({cls.__name__}) = {b}")
    if not (a == b and hash(a) == hash(b)):
        bad.append((inst, a, b))
print("DEFECT REPRODUCES" if bad else "not reproduced")
sys.exit(1 if bad else 0)
