"""pandas engine: the printed name of a pyarrow timestamp / duration / time32 / time64 type ('timestamp[ns][pyarrow]', ...) is accepted by pandas but not by pandas_engine.Engine.dtype (the string fallback does not unwrap the ArrowDtype that pandas returns), so str(dtype) does not resolve back.

Stand-alone replay: exits 1 while the defect reproduces on the pandera tree under $PANDERA_REPO (default /repo), 0 otherwise.
"""
import os
import sys
import warnings

sys.path.insert(0, os.environ.get("PANDERA_REPO", "/repo"))
warnings.simplefilter("ignore")

import pandas as pd

from pandera.engines import pandas_engine

E = pandas_engine.Engine
bad = []
for t in [pandas_engine.ArrowTimestamp(), pandas_engine.ArrowTimestamp(unit="us", tz="UTC"), pandas_engine.ArrowDuration(), pandas_engine.ArrowTime32(), pandas_engine.ArrowTime64()]:
    s = str(t)
    try:
        r = E.dtype(s)
        ok = type(r).__name__ == type(t).__name__ and str(r) == s
        print(f"dtype({s!r}) = {r!r}")
    except Exception as e:
        ok = False
        print(f"dtype({s!r}) raises {type(e).__name__}: {e}   (pandas parses it as {pd.api.types.pandas_dtype(s)!r})")
    if not ok:
        bad.append(s)
print("DEFECT REPRODUCES" if bad else "not reproduced")
sys.exit(1 if bad else 0)
