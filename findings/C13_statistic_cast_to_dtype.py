"""Replay of known finding C13-statistic-cast: exits 1 while the defect reproduces on the real code.

eq_strategy / isin_strategy (base case) emit np_dtype.type(value): for a statistic that is not a value of the column dtype
(Check.eq(3.5) / Check.isin([1.5]) on an int column - unsatisfiable schemas) the cast value (3 / 1) is emitted, which the
check rejects; nothing is reported.
"""
import sys, warnings
warnings.simplefilter("ignore")
import hypothesis
import pandas as pd
import pandera as pa


def invalid_draw(schema, size=3):
    """a draw of schema.strategy(size) that schema.validate rejects (found by hypothesis.find), or None"""
    def bad(obj):
        try:
            schema.validate(obj)
            return False
        except (pa.errors.SchemaError, pa.errors.SchemaErrors):
            return True
    try:
        return hypothesis.find(schema.strategy(size=size), bad, settings=hypothesis.settings(max_examples=120, database=None, deadline=None))
    except (hypothesis.errors.NoSuchExample, hypothesis.errors.Unsatisfiable):
        return None


out = {}
for label, schema in {"eq(3.5) on int": pa.SeriesSchema(int, pa.Check.eq(3.5)), "isin([1.5]) on int": pa.SeriesSchema(int, pa.Check.isin([1.5]))}.items():
    try:
        bad = invalid_draw(schema)
        out[label] = None if bad is None else bad.tolist()
    except Exception as e:
        out[label] = None
        print(label, "reported", type(e).__name__)
print({"draws rejected by their own schema": out})
sys.exit(1 if any(v is not None for v in out.values()) else 0)
