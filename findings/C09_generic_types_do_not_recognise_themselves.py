"""pandas engine: the python-generic data types (PythonDict, PythonList, PythonTuple, PythonTypedDict, PythonNamedTuple) answer False to t.check(t) (check() only accepts the physical object dtype); polars Enum() resolved from pl.Enum raises TypeError in t.check(t).

Stand-alone replay: exits 1 while the defect reproduces on the pandera tree under $PANDERA_REPO (default /repo), 0 otherwise.
"""
import os
import sys
import warnings

sys.path.insert(0, os.environ.get("PANDERA_REPO", "/repo"))
warnings.simplefilter("ignore")

import polars as pl

from pandera.engines import pandas_engine, polars_engine

bad = []
for k in [dict, list, tuple, "TypedDict", "NamedTuple"]:
    t = pandas_engine.Engine.dtype(k)
    c = t.check(t)
    print(f"pandas dtype({k!r}) = {type(t).__name__}; t.check(t) = {c}")
    if c is not True:
        bad.append(k)
t = polars_engine.Engine.dtype(pl.Enum)
try:
    c = t.check(t)
    print("polars Enum: t.check(t) =", c)
    if not c:
        bad.append("Enum")
except Exception as e:
    print("polars Enum: t.check(t) raises", type(e).__name__, e)
    bad.append("Enum")
print("DEFECT REPRODUCES" if bad else "not reproduced")
sys.exit(1 if bad else 0)
