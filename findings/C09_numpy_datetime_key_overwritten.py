"""numpy engine: datetime.datetime is declared an equivalent of DateTime64 AND (by a typo for datetime.timedelta) of Timedelta64; the later registration wins, so datetime.datetime resolves to timedelta64[ns] and datetime.timedelta is not registered at all.

Stand-alone replay: exits 1 while the defect reproduces on the pandera tree under $PANDERA_REPO (default /repo), 0 otherwise.
"""
import os
import sys
import warnings

sys.path.insert(0, os.environ.get("PANDERA_REPO", "/repo"))
warnings.simplefilter("ignore")

import datetime

import numpy as np

from pandera.engines import numpy_engine

E = numpy_engine.Engine
a, b = E.dtype(datetime.datetime), E.dtype(np.datetime64)
print("dtype(datetime.datetime) =", a, "| dtype(np.datetime64) =", b, "| dtype(datetime.timedelta) =", E.dtype(datetime.timedelta))
bad = not (a == b and hash(a) == hash(b))
print("DEFECT REPRODUCES" if bad else "not reproduced")
sys.exit(1 if bad else 0)
