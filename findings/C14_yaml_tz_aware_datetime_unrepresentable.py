"""Replay of known finding C14-yaml-tz-aware: exits 1 while the defect reproduces on the real code.

_serialize_check_stats only formats a datetime bound when the component dtype equals the naive DateTime(); for a
tz-aware column the raw Timestamp reaches yaml.safe_dump: to_yaml(infer_schema(D)) raises RepresenterError.
"""
import sys
import pandas as pd
import pandera as pa
from pandera.io import from_yaml, to_yaml

df = pd.DataFrame({"t": pd.to_datetime(["2020-01-01", "2021-01-01"]).tz_localize("UTC")})
schema = pa.infer_schema(df)
schema.validate(df)
try:
    from_yaml(to_yaml(schema)).validate(df)
    obs = "accepted after round trip"
except Exception as e:  # yaml.representer.RepresenterError
    obs = f"{type(e).__name__}: {str(e)[:140]}"
print({"tz-aware datetime column": obs})
sys.exit(0 if obs.startswith("accepted") else 1)
