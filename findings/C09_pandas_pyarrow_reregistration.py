"""pandas engine: resolving any parametrised pyarrow dtype lazily imports pandera.engines.pyarrow_engine, which re-registers a SECOND copy of every Arrow* class; from then on the same spelling resolves to an object that is not equal to the one it resolved to before (and not equal to pandas_engine.Arrow*(...)).

Stand-alone replay: exits 1 while the defect reproduces on the pandera tree under $PANDERA_REPO (default /repo), 0 otherwise.
"""
import os
import sys
import warnings

sys.path.insert(0, os.environ.get("PANDERA_REPO", "/repo"))
warnings.simplefilter("ignore")

import pandas as pd
import pyarrow as pa

from pandera.engines import pandas_engine

E = pandas_engine.Engine
before = E.dtype("int64[pyarrow]")
E.dtype(pd.ArrowDtype(pa.timestamp("ns")))
after = E.dtype("int64[pyarrow]")
print("before:", type(before).__module__, before, "| after:", type(after).__module__, after, "| equal:", before == after)
direct = pandas_engine.ArrowTime64(unit="us")
res = E.dtype(pd.ArrowDtype(pa.time64("us")))
print("pandas_engine.ArrowTime64('us') == dtype(pd.ArrowDtype(pa.time64('us'))):", direct == res)
bad = not (before == after) or not (direct == res)
print("DEFECT REPRODUCES" if bad else "not reproduced")
sys.exit(1 if bad else 0)
