"""Replay of known finding C03-column-parsers-lost-under-subsample (exit 1 = reproduces).
pandas DataFrameSchema.validate(df, head= / tail= / sample=): the schema components parse (custom parsers, written back in place) the
SUB-SAMPLE copy they are given; the frame that validate returns is the whole, un-parsed frame.  Without the option the column is parsed."""
import sys
import warnings

warnings.simplefilter("ignore")
import pandas as pd
import pandera as pa

schema = pa.DataFrameSchema({"a": pa.Column(float, parsers=pa.Parser(lambda s: s * 10))})
df = pd.DataFrame({"a": [1.0, 2.0, 3.0]})
full = schema.validate(df)["a"].tolist()
obs = {"no option": full}
bad = False
for kw in ({"head": 2}, {"tail": 1}, {"head": 3}):
    got = schema.validate(df, **kw)["a"].tolist()
    obs[str(kw)] = got
    bad = bad or got != full
# the same root: the default of a REGEX column is filled by the component (on the sub-sample copy), a named column's by the container
import numpy as np

rx = pa.DataFrameSchema({"x_.*": pa.Column(float, regex=True, default=0.0)})
d2 = pd.DataFrame({"x_1": [1.0, 2.0, np.nan]})
whole, sub = rx.validate(d2)["x_1"].tolist(), rx.validate(d2, head=1)["x_1"].tolist()
obs["regex column default, no option / head=1"] = [whole, sub]
bad = bad or repr(whole) != repr(sub)
print(obs)
sys.exit(1 if bad else 0)
