"""Replay of known finding C03-column-parsers-lost-under-subsample (exit 1 = reproduces).
pandas DataFrameSchema.validate(df, head= / tail= / sample=): the schema components parse (custom parsers, written back in place) the
SUB-SAMPLE copy they are given; the frame that validate returns is the whole, un-parsed frame.  Without the option the column is parsed."""
import sys
import warnings

warnings.simplefilter("ignore")
import pandas as pd
import pandera as pa

schema = pa.DataFrameSchema({"a": pa.Column(float, parsers=pa.Parser(lambda s: s * 10))})
df = pd.DataFrame({"a": [1.0, 2.0, 3.0]})
full = schema.validate(df)["a"].tolist()
obs = {"no option": full}
bad = False
for kw in ({"head": 2}, {"tail": 1}, {"head": 3}):
    got = schema.validate(df, **kw)["a"].tolist()
    obs[str(kw)] = got
    bad = bad or got != full
print(obs)
sys.exit(1 if bad else 0)
