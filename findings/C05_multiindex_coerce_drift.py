"""Replay of known finding C05-multiindex-coerce-drift (exit 1 = reproduces).

run_schema_component_checks saves `component.coerce` through the MultiIndex *getter* (`_coerce or any(level.coerce)`)
and restores through the *setter* (`_coerce = value`): one validation flips the private flag False -> True for good.
"""
import sys
import pandas as pd
import pandera as pa

mi = pa.MultiIndex([pa.Index(int, name="a", coerce=True), pa.Index(int, name="b")])
schema = pa.DataFrameSchema({"x": pa.Column(int)}, index=mi)
before = schema.index._coerce
df = pd.DataFrame({"x": [1]}, index=pd.MultiIndex.from_tuples([(1, 2)], names=["a", "b"]))
schema.validate(df)
after = schema.index._coerce
print({"_coerce before": before, "_coerce after one validate": after})
sys.exit(1 if before != after else 0)
