"""C15 finding: set_index builds the Index from only dtype/checks/nullable/unique/coerce of the column: parsers, title,
description, default, metadata, report_duplicates and drop_invalid_rows of the moved column are lost, so
set_index(S) does not keep the untouched properties and reset_index(set_index(S, k), k) != S.
Exits 1 while the defect reproduces."""
import os, sys
sys.path.insert(0, os.environ.get("PANDERA_REPO", "/repo"))
import pandas as pd
import pandera as pa

col = pa.Column(int, parsers=[pa.Parser(lambda s: s.abs())], report_duplicates="exclude_first", title="t", description="d",
                default=1, metadata={"k": 1}, drop_invalid_rows=True, unique=True)
S = pa.DataFrameSchema({"a": col, "b": pa.Column(str)})
idx = S.set_index(["a"]).index
lost = [p for p in ("parsers", "report_duplicates", "title", "description", "default", "metadata", "drop_invalid_rows")
        if getattr(idx, p) != getattr(S.columns["a"], p)]
print("index properties that differ from the moved column's:", lost)
# behavioural consequence: the parser no longer runs, so S accepts D but set_index(S) rejects set_index(D)
S2 = pa.DataFrameSchema({"a": pa.Column(int, pa.Check.ge(0), parsers=[pa.Parser(lambda s: s.abs())]), "b": pa.Column(str)})
D = pd.DataFrame({"a": [-1, 2], "b": ["x", "y"]})
S2.validate(D)
try:
    S2.set_index(["a"]).validate(D.set_index("a"))
    verdict = "accepted"
except pa.errors.SchemaError as e:
    verdict = "REJECTED: " + str(e)[:80]
print("S accepts D; set_index(S) on D.set_index('a'):", verdict)
bad = bool(lost) or verdict != "accepted"
print("DEFECT REPRODUCES" if bad else "not reproduced")
sys.exit(1 if bad else 0)
