"""Replay of known finding C13-in-range-int-exclusive: exits 1 while the defect reproduces on the real code.

in_range_strategy (base case) passes exclude_min / exclude_max to hypothesis.extra.numpy.from_dtype, which forwards them only for
float dtypes; for integer dtypes the excluded bounds are emitted (no filter is applied, unlike gt_strategy / lt_strategy).
"""
import sys, warnings
warnings.simplefilter("ignore")
import hypothesis
import pandas as pd
import pandera as pa


def invalid_draw(schema, size=3):
    """a draw of schema.strategy(size) that schema.validate rejects (found by hypothesis.find), or None"""
    def bad(obj):
        try:
            schema.validate(obj)
            return False
        except (pa.errors.SchemaError, pa.errors.SchemaErrors):
            return True
    try:
        return hypothesis.find(schema.strategy(size=size), bad, settings=hypothesis.settings(max_examples=120, database=None, deadline=None))
    except (hypothesis.errors.NoSuchExample, hypothesis.errors.Unsatisfiable):
        return None


schema = pa.SeriesSchema(int, pa.Check.in_range(0, 3, include_min=False, include_max=False))
bad = invalid_draw(schema)
print({"schema": "SeriesSchema(int, Check.in_range(0, 3, include_min=False, include_max=False))",
       "draw rejected by its own schema": None if bad is None else bad.tolist()})
sys.exit(1 if bad is not None else 0)
