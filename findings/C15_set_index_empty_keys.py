"""C15 finding: set_index([]) is an invalid request (DataFrame.set_index([]) raises ValueError) but the schema
returns a schema whose index is an empty MultiIndex instead of raising SchemaInitError/ValueError.
Exits 1 while the defect reproduces."""
import os, sys
sys.path.insert(0, os.environ.get("PANDERA_REPO", "/repo"))
import pandas as pd
import pandera as pa

S = pa.DataFrameSchema({"a": pa.Column(int)})
try:
    pd.DataFrame({"a": [1]}).set_index([])
    frame = "accepted"
except ValueError as e:
    frame = "ValueError: " + str(e)
try:
    R = S.set_index([])
    schema = f"returned index={type(R.index).__name__} with {len(R.index.indexes)} levels"
    bad = True
except (pa.errors.SchemaInitError, ValueError) as e:
    schema = "raises " + type(e).__name__
    bad = False
print("DataFrame.set_index([]):", frame, "| DataFrameSchema.set_index([]):", schema)
print("DEFECT REPRODUCES" if bad else "not reproduced")
sys.exit(1 if bad else 0)
