"""Replay of known finding C08-polars-nan-is-a-value-in-checks (exit 1 = reproduces).
A float column whose missing cells arrive as the float NaN (pl.DataFrame({"a": [1.0, nan]}) - not via pl.from_pandas, which turns
them into nulls).  pandas: NaN is the missing value (dropped under ignore_na=True, failing under ignore_na=False).  polars: NaN is a
VALUE, equal to itself and greater than every number, and postprocess_lazyframe_output only pardons nulls - while the polars
check_nullable treats NaN as missing ("nulls and nan values are effectively equivalent")."""
import sys
import warnings

warnings.simplefilter("ignore")
import pandas as pd
import polars as pl
import pandera as pa
import pandera.polars as pp

nan = float("nan")
cases = [("lt(5), ignore_na=True", pa.Check.lt(5)), ("eq(1.0), ignore_na=True", pa.Check.eq(1.0)), ("isin([1.0]), ignore_na=True", pa.Check.isin([1.0])),
         ("in_range(0, 5), ignore_na=True", pa.Check.in_range(0, 5)), ("gt(0), ignore_na=False", pa.Check.gt(0, ignore_na=False)),
         ("ge(0), ignore_na=False", pa.Check.ge(0, ignore_na=False))]
bad, obs = False, {}
for label, chk in cases:
    verdicts = []
    for m, fr in ((pa, pd.DataFrame({"a": [1.0, nan]})), (pp, pl.DataFrame({"a": [1.0, nan]}))):
        try:
            m.DataFrameSchema({"a": m.Column(float, chk, nullable=True)}).validate(fr, lazy=True)
            verdicts.append("accepts")
        except pa.errors.SchemaErrors:
            verdicts.append("rejects")
    obs[label] = {"pandas": verdicts[0], "polars": verdicts[1]}
    bad = bad or verdicts[0] != verdicts[1]
print(obs)
sys.exit(1 if bad else 0)
