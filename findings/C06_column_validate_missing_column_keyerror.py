"""Replay of known finding C06-column-validate-keyerror (exit 1 = reproduces).
Column.validate on a frame that lacks the column leaks KeyError instead of a SchemaError."""
import sys
import pandas as pd
import pandera as pa

try:
    pa.Column(int, name="a").validate(pd.DataFrame({"b": [1]}))
    out = "returned"
except pa.errors.SchemaError:
    out = "SchemaError"
except Exception as e:  # noqa
    out = type(e).__name__
print({"Column('a').validate(frame without 'a')": out})
sys.exit(1 if out == "KeyError" else 0)
