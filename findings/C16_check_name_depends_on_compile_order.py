"""Replay of known finding C16-info-kwargs-name-popped: exits 1 while the defect reproduces on the real code.

BaseCheckInfo.to_check / BaseParserInfo.to_parser take the `name` keyword out of the decorator's keyword dict with
`self.check_kwargs.pop("name", None)`.  The info object is shared by every class of a hierarchy that inherits the method,
so the FIRST class whose schema is built gets the declared name and every class built later silently gets the method
name: Model.to_schema() depends on which relative was compiled first, and equal declarations give unequal schemas.
"""
import sys
import warnings

import pandera as pa

warnings.simplefilter("ignore")
which = sys.argv[1] if len(sys.argv) > 1 else "check"


def declare():
    class Base(pa.DataFrameModel):
        a: int

        if which == "check":
            @pa.check("a", name="declared_name")
            def method(cls, series):
                return series > 0
        else:
            @pa.parser("a", name="declared_name")
            def method(cls, series):
                return series

    class Child(Base):
        pass

    return Base, Child


def names(model):
    col = model.to_schema().columns["a"]
    return [x.name for x in (col.checks if which == "check" else col.parsers)]


Base, Child = declare()
parent_first = {"Base": names(Base), "Child": names(Child)}
Base, Child = declare()
child_first = {"Child": names(Child), "Base": names(Base)}
print({"kind": which, "parent compiled first": parent_first, "child compiled first": child_first})
ok = all(v == ["declared_name"] for v in list(parent_first.values()) + list(child_first.values()))
sys.exit(0 if ok else 1)
