"""Replay of known finding C10-coerce-value-disagrees-with-container-cast (exit 1 = reproduces).
The failure cases of a failed pandas coercion are decided element by element with DataType.coerce_value, which calls the numpy scalar type;
the coercion itself is the container cast (astype).  Where the two disagree the parser error names the wrong elements (C10: "failure cases
are exactly the input elements that cannot be converted individually"):
  * Int64: astype refuses 1.5 ("cannot safely cast"), np.int64(1.5) truncates it - 1.5 is never listed;
  * int8: astype wraps 300 around silently, np.int8(300) raises - 300 is listed although [1, 300] alone coerces;
  * timedelta64[ns]: astype accepts '1s', np.timedelta64('1s') raises - '1s' is listed although ['1s', '2s'] alone coerces."""
import sys
import warnings

warnings.simplefilter("ignore")
import pandas as pd
import pandera as pa
from pandera.engines import pandas_engine as pe


def alone_fails(dt, v):
    try:
        dt.coerce(pd.Series([v], dtype=object))
        return False
    except Exception:  # noqa: BLE001
        return True


obs, bad = {}, False
for name, dtype, data in (("Int64", "Int64", [1, "foo", 1.5]), ("int8", "int8", [1, 300, "x"]), ("timedelta64[ns]", "timedelta64[ns]", ["1s", "foo"])):
    dt = pe.Engine.dtype(dtype)
    want = [v for v in data if alone_fails(dt, v)]
    try:
        dt.try_coerce(pd.Series(data, dtype=object))
        got = "coerced"
    except pa.errors.ParserError as e:
        got = e.failure_cases["failure_case"].tolist()
    obs[name] = {"failure cases": got, "elements that do not convert alone": want}
    bad = bad or got != want
print(obs)
sys.exit(1 if bad else 0)
