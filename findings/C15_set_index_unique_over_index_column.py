"""Replay of known finding C15-set-index-unique-over-index-column (exit 1 = reproduces).
DataFrameSchema({a, b}, unique=["a", "b"]).set_index(["a"]): the constraint still names "a", which is an index level of the transformed
frames, and the back ends check the columns that are left ("b") ALONE: S accepts D = [(1, 2), (3, 2)], set_index(S) rejects
D.set_index("a").  (Dropping the constraint instead would break the inverse law reset_index(set_index(S, k), k) == S.)"""
import sys
import warnings

warnings.simplefilter("ignore")
import pandas as pd
import pandera as pa

S = pa.DataFrameSchema({"a": pa.Column(int), "b": pa.Column(int)}, unique=["a", "b"])
D = pd.DataFrame({"a": [1, 3], "b": [2, 2]})
S.validate(D)
T = S.set_index(["a"])
try:
    T.validate(D.set_index("a"))
    verdict = "accepts"
except (pa.errors.SchemaError, pa.errors.SchemaErrors) as e:
    verdict = "rejects: " + str(e).splitlines()[0][:80]
print({"S accepts D": True, "set_index(S).unique": T.unique, "set_index(S) on D.set_index('a')": verdict, "reset_index(set_index(S)) == S": T.reset_index() == S})
sys.exit(1 if verdict != "accepts" else 0)
